"""Reference for Bitcoin-style signed text messages.  Imports nothing from pycoin.

    hash     z = SHA256d( varstr(magic) || varstr(message) ),  varstr = compact-size length || bytes, text as UTF-8;
             magic is "<Network name> Signed Message:\\n" (Bitcoin Core: strMessageMagic = "Bitcoin Signed Message:\\n")
    compact  65 bytes: (27 + recid + 4*compressed) || r (32, big endian) || s (32, big endian), shown as base64
             recid bit 0 = parity of R.y, bit 1 = (R.x >= n), R = k*G the nonce point       (Core key.cpp SignCompact)
    recover  x = r + n*(recid >> 1) must be < p and have a curve point; R = (x, y with parity recid & 1);
             Q = r^-1 (s*R - z*G)                                                            (SEC1 4.1.6)

Calibrated at import on two signed messages published by third parties (brainwallet "multibit" example, bitrated.com
profile of Bit2c): the recovered key must hash to the published address / equal the published public key; the second
message is longer than 252 bytes, so the 0xfd compact-size form is exercised too.
"""
import base64
import hashlib

from . import refec, refecdsa, refenc

CURVE = refec.SECP256K1
N = CURVE.n
P = CURVE.p


def compact_size(n: int) -> bytes:
    if n < 0xfd:
        return bytes([n])
    if n <= 0xffff:
        return b"\xfd" + n.to_bytes(2, "little")
    if n <= 0xffffffff:
        return b"\xfe" + n.to_bytes(4, "little")
    return b"\xff" + n.to_bytes(8, "little")


def varstr(b: bytes) -> bytes:
    return compact_size(len(b)) + b


def magic_hash(magic: str, message: str) -> int:
    return int.from_bytes(refenc.sha256d(varstr(magic.encode("utf8")) + varstr(message.encode("utf8"))), "big")


def magic_for(network_name: str) -> str:
    return "%s Signed Message:\n" % network_name


def compact(header: int, r: int, s: int) -> bytes:
    return bytes([header]) + r.to_bytes(32, "big") + s.to_bytes(32, "big")


def b64(payload: bytes) -> str:
    return base64.b64encode(payload).decode("ascii")


def sign(d: int, z: int):
    """(r, s, recid) of the RFC 6979 signature (first nonce); r == 0 or s == 0 reported as is"""
    r, s, _k, R = refecdsa.sign(CURVE, d, z)
    recid = (R[1] & 1) | (2 if R[0] >= N else 0)
    return r, s, recid


def recover(z: int, r: int, s: int, recid: int):
    """the public key point, or None when the signature/recid pair denotes no key"""
    if not (1 <= r < N and 1 <= s < N and 0 <= recid < 4):
        return None
    x = r + N * (recid >> 1)
    if x >= P:
        return None
    ys = CURVE.ys_for_x(x)
    if not ys:
        return None
    y = ys[recid & 1] if len(ys) == 2 else ys[0]
    if (y & 1) != (recid & 1):
        return None
    R = (x, y)
    ri = pow(r, -1, N)
    Q = CURVE.add(CURVE.mul_fast(s * ri % N, R), CURVE.mul_fast((-z * ri) % N, CURVE.G))
    return Q


def hash160(b: bytes) -> bytes:
    return hashlib.new("ripemd160", hashlib.sha256(b).digest()).digest()


def key_hash(Q, compressed: bool) -> bytes:
    return hash160(refenc.sec_encode(Q[0], Q[1], compressed))


def verdict(z: int, payload: bytes, Q_expected=None, hash160_expected=None):
    """exact expected verification result for a decoded payload: True iff it is 65 bytes, header in 27..34, and the
    recovered key equals Q_expected (key target) or hashes - in the header's compression - to hash160_expected"""
    if len(payload) != 65 or not (27 <= payload[0] < 35):
        return False
    h = payload[0] - 27
    Q = recover(z, int.from_bytes(payload[1:33], "big"), int.from_bytes(payload[33:], "big"), h & 3)
    if Q is None:
        return False
    if Q_expected is not None:
        return Q == Q_expected
    return key_hash(Q, bool(h & 4)) == hash160_expected


def _calibrate():
    assert compact_size(252) == b"\xfc" and compact_size(253) == b"\xfd\xfd\x00" and compact_size(65535) == b"\xfd\xff\xff"
    assert compact_size(65536) == b"\xfe\x00\x00\x01\x00"
    magic = magic_for("Bitcoin")
    assert varstr(magic.encode()) == b"\x18Bitcoin Signed Message:\n"
    # 1. brainwallet "multibit" example
    sig = base64.b64decode("HCT1esk/TWlF/o9UNzLDANqsPXntkMErf7erIrjH5IBOZP98cNcmWmnW0GpSAi3wbr6CwpUAN4ctNn1T71UBwSc=")
    z = magic_hash(magic, "This is an example of a signed message.")
    addr = refenc.b58check_decode("1HZwkjkeaoZfTSaJxDw6aKkxp45agDiEzN")
    assert addr[0] == 0 and verdict(z, sig, hash160_expected=addr[1:])
    assert not verdict(z + 1, sig, hash160_expected=addr[1:])
    assert not verdict(z, bytes([sig[0] ^ 1 if sig[0] & 1 else sig[0] + 1]) + sig[1:], hash160_expected=addr[1:])
    # 2. bitrated.com profile of Bit2c (message of 310 bytes: compact-size 0xfd form)
    msg = ("We will try to contact both parties to gather information and evidence, and do my best to make rightful "
           "judgement. Evidence may be submitted to us on https://www.bit2c.co.il/home/contact or in a private message "
           "to info@bit2c.co.il or in any agreed way.\n\nhttps://www.bit2c.co.il")
    assert len(msg) > 252
    sig = base64.b64decode("H2utKkquLbyEJamGwUfS9J0kKT4uuMTEr2WX2dPU9YImg4LeRpyjBelrqEqfM4QC8pJ+hVlQgZI5IPpLyRNxvK8=")
    pub = bytes.fromhex("0396267072e597ad5d043db7c73e13af84a77a7212871f1aade607fb0f2f96e1a8")
    x, y, _c = refenc.sec_decode_strict(pub, P, 0, 7)
    z = magic_hash(magic, msg)
    assert verdict(z, sig, Q_expected=(x, y))
    assert verdict(z, sig, hash160_expected=refenc.b58check_decode("15etuU8kwLFCBbCNRsgQTvWgrGWY9829ej")[1:])
    # 3. sign -> recover is the identity in the reference itself
    for d in (1, 2, N - 1, 0xC0FFEE):
        r, s, recid = sign(d, z)
        assert recover(z, r, s, recid) == CURVE.mul_fast(d, CURVE.G)
        assert recover(z, r, s, recid ^ 1) != CURVE.mul_fast(d, CURVE.G)


_calibrate()
