"""Reference deterministic ECDSA: RFC 6979 section 3.2 with HMAC-SHA256, textbook sign / verify / recover.

Imports nothing from pycoin.  The message hash is handled as C01 states it: z is an integer, its 32-byte
big-endian form is the RFC 6979 input octet string h1 (bits2int takes the leftmost qlen bits), and the
signing / verification equations use z itself (un-truncated), reduced mod n.
"""
import hashlib
import hmac

from . import refec


def bits2int(b: bytes, qlen: int) -> int:
    v = int.from_bytes(b, "big")
    blen = len(b) * 8
    if blen > qlen:
        v >>= blen - qlen
    return v


def int2octets(x: int, rolen: int) -> bytes:
    return x.to_bytes(rolen, "big")


def bits2octets(b: bytes, q: int, qlen: int, rolen: int) -> bytes:
    z1 = bits2int(b, qlen)
    z2 = z1 - q if z1 >= q else z1
    return int2octets(z2, rolen)


def rfc6979_nonces(q: int, x: int, h1: bytes):
    """generator of candidate nonces k (RFC 6979 3.2 steps b-h), HMAC-SHA256"""
    qlen = q.bit_length()
    rolen = (qlen + 7) // 8
    hlen = 32
    V = b"\x01" * hlen
    K = b"\x00" * hlen
    xo = int2octets(x, rolen)
    ho = bits2octets(h1, q, qlen, rolen)
    K = hmac.new(K, V + b"\x00" + xo + ho, hashlib.sha256).digest()
    V = hmac.new(K, V, hashlib.sha256).digest()
    K = hmac.new(K, V + b"\x01" + xo + ho, hashlib.sha256).digest()
    V = hmac.new(K, V, hashlib.sha256).digest()
    while True:
        T = b""
        while len(T) * 8 < qlen:
            V = hmac.new(K, V, hashlib.sha256).digest()
            T += V
        k = bits2int(T, qlen)
        if 1 <= k < q:
            yield k
        K = hmac.new(K, V + b"\x00", hashlib.sha256).digest()
        V = hmac.new(K, V, hashlib.sha256).digest()


def first_nonce(q, x, z):
    return next(rfc6979_nonces(q, x, z.to_bytes(32, "big")))


def sign_with_k(curve, d, z, k):
    """(r, s, R) with R = k*G; r or s may be 0 (caller decides)"""
    n = curve.n
    R = curve.mul_fast(k, curve.G)
    if R is None:
        return 0, 0, None
    r = R[0] % n
    s = pow(k, -1, n) * (z + r * d) % n
    return r, s, R


def sign(curve, d, z):
    """RFC 6979 signature using the first nonce; returns (r, s, k, R).  r == 0 or s == 0 is reported as is."""
    k = first_nonce(curve.n, d, z)
    r, s, R = sign_with_k(curve, d, z, k)
    return r, s, k, R


def verify(curve, Q, z, r, s):
    """the verification equation exactly as property C01 states it"""
    n = curve.n
    if not (1 <= r < n and 1 <= s < n):
        return False
    si = pow(s, -1, n)
    P = curve.add(curve.mul_fast(z * si % n, curve.G), curve.mul_fast(r * si % n, Q))
    if P is None:
        return False
    return P[0] % n == r


def _calibrate():
    # RFC 6979 A.2.5, P-256 / SHA-256, message "sample"
    c = refec.SECP256R1
    x = 0xC9AFA9D845BA75166B5C215767B1D6934E50C3DB36E89B127B8A622B120F6721
    h = hashlib.sha256(b"sample").digest()
    k = next(rfc6979_nonces(c.n, x, h))
    assert k == 0xA6E3C57DD01ABE90086538398355DD4C3B17AA873382B0F24D6129493D8AAD60
    z = int.from_bytes(h, "big")
    r, s, _k, _R = sign(c, x, z)
    assert r == 0xEFD48B2AACB6A8FD1140DD9CD45E81D69D2C877B56AAF991C34D0EA84EAF3716
    assert s == 0xF7CB1C942D657C41D436C7A1B6E29F65F3E900DBB9AFF4064DC4AB2F843ACDA8
    Q = c.mul_fast(x, c.G)
    assert verify(c, Q, z, r, s) and not verify(c, Q, z + 1, r, s)
    h = hashlib.sha256(b"test").digest()
    assert next(rfc6979_nonces(c.n, x, h)) == 0xD16B6AE827F17175E040871A1C7EC3500192C4C92677336EC2537ACAEE0008E0
    # widely published secp256k1 RFC 6979 vectors (Trezor / python-ecdsa test-suites)
    c = refec.SECP256K1
    vec = [
        (1, b"Satoshi Nakamoto", 0x8F8A276C19F4149656B280621E358CCE24F5F52542772691EE69063B74F15D15),
        (1, b"All those moments will be lost in time, like tears in rain. Time to die...",
         0x38AA22D72376B4DBC472E06C3BA403EE0A394DA63FC58D88686C611ABA98D6B3),
        (0xFFFFFFFFFFFFFFFFFFFFFFFFFFFFFFFEBAAEDCE6AF48A03BBFD25E8CD0364140, b"Satoshi Nakamoto",
         0x33A19B60E25FB6F4435AF53A3D42D493644827367E6453928554F43E49AA6F90),
        (0xf8b8af8ce3c7cca5e300d33939540c10d45ce001b8f252bfbc57ba0342904181, b"Alan Turing",
         0x525A82B70E67874398067543FD84C83D30C175FDC45FDEEE082FE13B1D7CFDF1),
    ]
    for x, m, kexp in vec:
        assert next(rfc6979_nonces(c.n, x, hashlib.sha256(m).digest())) == kexp
    r, s, _k, _R = sign(c, 1, int.from_bytes(hashlib.sha256(b"Satoshi Nakamoto").digest(), "big"))
    assert r == 0x934b1ea10a4b3c1757e2b0c017d0b6143ce3c9a7e6a4a49860d7a6ab210ee3d8
    assert min(s, c.n - s) == 0x2442ce9d2b916064108014783e923ec36b49743e2ffa1c4496f01a512aafd9e5


_calibrate()
