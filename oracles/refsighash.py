"""Reference signature-hash algorithms, transliterated from Bitcoin Core's SignatureHash (legacy and BIP143),
plus the fork-id (BCH/BTG) and single-SHA256 (Groestlcoin) variants.  Imports nothing from pycoin.

A transaction is a dict:
  {"version": int (unsigned 32), "locktime": int,
   "ins":  [{"prev_hash": bytes32 (as serialised), "prev_index": int, "script": bytes, "sequence": int}, ...],
   "outs": [{"value": int (unsigned 64), "script": bytes}, ...]}
"""
import hashlib
import struct

OP_CODESEPARATOR = 0xab
OP_PUSHDATA1, OP_PUSHDATA2, OP_PUSHDATA4 = 0x4c, 0x4d, 0x4e

SIGHASH_ALL, SIGHASH_NONE, SIGHASH_SINGLE, SIGHASH_FORKID, SIGHASH_ANYONECANPAY = 1, 2, 3, 0x40, 0x80

ONE = 1  # uint256 "one": the 32-byte little-endian value 1


def sha256(b):
    return hashlib.sha256(b).digest()


def sha256d(b):
    return sha256(sha256(b))


def compact_size(n):
    if n < 253:
        return bytes([n])
    if n <= 0xffff:
        return b"\xfd" + struct.pack("<H", n)
    if n <= 0xffffffff:
        return b"\xfe" + struct.pack("<L", n)
    return b"\xff" + struct.pack("<Q", n)


def get_op(script, pc):
    """CScript::GetOp.  returns (opcode, data_or_None, new_pc) or None on failure"""
    end = len(script)
    if end - pc < 1:
        return None
    opcode = script[pc]
    pc += 1
    data = None
    if opcode <= OP_PUSHDATA4:
        if opcode < OP_PUSHDATA1:
            n = opcode
        elif opcode == OP_PUSHDATA1:
            if end - pc < 1:
                return None
            n = script[pc]
            pc += 1
        elif opcode == OP_PUSHDATA2:
            if end - pc < 2:
                return None
            n = script[pc] | (script[pc + 1] << 8)
            pc += 2
        else:
            if end - pc < 4:
                return None
            n = int.from_bytes(script[pc:pc + 4], "little")
            pc += 4
        if end - pc < n:
            return None
        data = bytes(script[pc:pc + n])
        pc += n
    return opcode, data, pc


def push_encoding(data):
    """CScript() << std::vector: size-based opcode, never OP_n"""
    n = len(data)
    if n < OP_PUSHDATA1:
        return bytes([n]) + data
    if n <= 0xff:
        return bytes([OP_PUSHDATA1, n]) + data
    if n <= 0xffff:
        return bytes([OP_PUSHDATA2]) + struct.pack("<H", n) + data
    return bytes([OP_PUSHDATA4]) + struct.pack("<L", n) + data


def find_and_delete(script, b):
    """CScript::FindAndDelete; returns (new_script, nFound)"""
    if not b:
        return script, 0
    n_found = 0
    result = bytearray()
    pc = 0
    pc2 = 0
    end = len(script)
    while True:
        result += script[pc2:pc]
        while end - pc >= len(b) and script[pc:pc + len(b)] == b:
            pc += len(b)
            n_found += 1
        pc2 = pc
        r = get_op(script, pc)
        if r is None:
            break
        pc = r[2]
    if n_found > 0:
        result += script[pc2:end]
        return bytes(result), n_found
    return script, 0


def serialize_script_code(script):
    """CTransactionSignatureSerializer::SerializeScriptCode: script with OP_CODESEPARATORs removed, length-prefixed"""
    out = bytearray()
    pc = 0
    begin = 0
    nsep = 0
    while True:
        r = get_op(script, pc)
        if r is None:
            break
        pc = r[2]
        if r[0] == OP_CODESEPARATOR:
            out += script[begin:pc - 1]
            begin = pc
            nsep += 1
    if begin != len(script):
        out += script[begin:]
    assert len(out) == len(script) - nsep
    return compact_size(len(out)) + bytes(out)


def ser_outpoint(i):
    return i["prev_hash"] + struct.pack("<L", i["prev_index"])


def ser_txout(o):
    return struct.pack("<Q", o["value"]) + compact_size(len(o["script"])) + o["script"]


def legacy_preimage(tx, n_in, script_code, hash_type):
    """serialisation hashed by the legacy algorithm, or None when the result is the constant one"""
    if n_in >= len(tx["ins"]):
        return None
    base = hash_type & 0x1f
    if base == SIGHASH_SINGLE and n_in >= len(tx["outs"]):
        return None
    acp = bool(hash_type & SIGHASH_ANYONECANPAY)
    single = base == SIGHASH_SINGLE
    none = base == SIGHASH_NONE
    s = bytearray(struct.pack("<L", tx["version"] & 0xffffffff))
    idxs = [n_in] if acp else list(range(len(tx["ins"])))
    s += compact_size(len(idxs))
    for k in idxs:
        i = tx["ins"][k]
        s += ser_outpoint(i)
        if k != n_in:
            s += compact_size(0)
        else:
            s += serialize_script_code(script_code)
        if k != n_in and (single or none):
            s += struct.pack("<L", 0)
        else:
            s += struct.pack("<L", i["sequence"])
    n_out = 0 if none else (n_in + 1 if single else len(tx["outs"]))
    s += compact_size(n_out)
    for k in range(n_out):
        if single and k != n_in:
            s += struct.pack("<q", -1) + compact_size(0)
        else:
            s += ser_txout(tx["outs"][k])
    s += struct.pack("<L", tx["locktime"])
    s += struct.pack("<L", hash_type & 0xffffffff)
    return bytes(s)


def legacy(tx, n_in, script_code, hash_type, hasher=sha256d):
    """integer value of the legacy signature hash (digest read big-endian, as pycoin hands it to verify);
    the constant 'one' case is uint256(1), i.e. bytes 01 00..00, read big-endian = 1 << 248"""
    pre = legacy_preimage(tx, n_in, script_code, hash_type)
    if pre is None:
        return int.from_bytes(b"\x01" + b"\0" * 31, "big")
    return int.from_bytes(hasher(pre), "big")


def bip143_preimage(tx, n_in, script_code, amount, hash_type, hasher=sha256d):
    base = hash_type & 0x1f
    acp = bool(hash_type & SIGHASH_ANYONECANPAY)
    zero = b"\0" * 32
    hash_prevouts = zero if acp else hasher(b"".join(ser_outpoint(i) for i in tx["ins"]))
    if not acp and base != SIGHASH_SINGLE and base != SIGHASH_NONE:
        hash_sequence = hasher(b"".join(struct.pack("<L", i["sequence"]) for i in tx["ins"]))
    else:
        hash_sequence = zero
    if base != SIGHASH_SINGLE and base != SIGHASH_NONE:
        hash_outputs = hasher(b"".join(ser_txout(o) for o in tx["outs"]))
    elif base == SIGHASH_SINGLE and n_in < len(tx["outs"]):
        hash_outputs = hasher(ser_txout(tx["outs"][n_in]))
    else:
        hash_outputs = zero
    i = tx["ins"][n_in]
    return (struct.pack("<L", tx["version"] & 0xffffffff) + hash_prevouts + hash_sequence + ser_outpoint(i)
            + compact_size(len(script_code)) + script_code + struct.pack("<Q", amount)
            + struct.pack("<L", i["sequence"]) + hash_outputs + struct.pack("<L", tx["locktime"])
            + struct.pack("<L", hash_type & 0xffffffff))


def bip143(tx, n_in, script_code, amount, hash_type, hasher=sha256d):
    return int.from_bytes(hasher(bip143_preimage(tx, n_in, script_code, amount, hash_type, hasher)), "big")


def forkid(tx, n_in, script_code, amount, hash_type, fork_id):
    """BCH (fork_id 0) / BTG (fork_id 79): BIP143 digest with (hash_type | fork_id << 8) in the trailing word only.
    Returns None when the hash type lacks SIGHASH_FORKID (must be refused)."""
    if not hash_type & SIGHASH_FORKID:
        return None
    pre = bip143_preimage(tx, n_in, script_code, amount, hash_type)
    pre = pre[:-4] + struct.pack("<L", (hash_type | (fork_id << 8)) & 0xffffffff)
    return int.from_bytes(sha256d(pre), "big")


def ser_tx_legacy(tx):
    s = bytearray(struct.pack("<L", tx["version"] & 0xffffffff))
    s += compact_size(len(tx["ins"]))
    for i in tx["ins"]:
        s += ser_outpoint(i) + compact_size(len(i["script"])) + i["script"] + struct.pack("<L", i["sequence"])
    s += compact_size(len(tx["outs"]))
    for o in tx["outs"]:
        s += ser_txout(o)
    s += struct.pack("<L", tx["locktime"])
    return bytes(s)


def _calibrate():
    h = bytes.fromhex
    # BIP143 "Native P2WPKH" example
    tx = {"version": 1, "locktime": 0x11,
          "ins": [{"prev_hash": h("fff7f7881a8099afa6940d42d1e7f6362bec38171ea3edf433541db4e4ad969f"), "prev_index": 0,
                   "script": b"", "sequence": 0xffffffee},
                  {"prev_hash": h("ef51e1b804cc89d182d279655c3aa89e815b1b309fe287d9b2b55d57b90ec68a"), "prev_index": 1,
                   "script": b"", "sequence": 0xffffffff}],
          "outs": [{"value": 0x0000000006b22c20, "script": h("76a9148280b37df378db99f66f85c95a783a76ac7a6d5988ac")},
                   {"value": 0x000000000d519390, "script": h("76a9143bde42dbee7e4dbe6a21b2d50ce2f0167faa815988ac")}]}
    sc = h("76a9141d0f172a0ecb48aee1be1f2687d2963ae33f71a188ac")
    d = bip143(tx, 1, sc, 600000000, 1)
    assert d == int("c37af31116d1b27caf68aae9e3ac82f1477929014d5b917657d0eb49478cb670", 16), hex(d)
    assert ser_tx_legacy(tx) == h(
        "0100000002fff7f7881a8099afa6940d42d1e7f6362bec38171ea3edf433541db4e4ad969f0000000000eeffffffef51e1b804cc89d182d279655c3aa89e815b1b309fe287d9b2b55d57b90ec68a0100000000ffffffff02202cb206000000001976a9148280b37df378db99f66f85c95a783a76ac7a6d5988ac9093510d000000001976a9143bde42dbee7e4dbe6a21b2d50ce2f0167faa815988ac11000000")
    # BIP143 "P2SH-P2WPKH" example
    tx = {"version": 1, "locktime": 0x492,
          "ins": [{"prev_hash": h("db6b1b20aa0fd7b23880be2ecbd4a98130974cf4748fb66092ac4d3ceb1a5477"), "prev_index": 1,
                   "script": b"", "sequence": 0xfffffffe}],
          "outs": [{"value": 0x000000000bebb4b8, "script": h("76a914a457b684d7f0d539a46a45bbc043f35b59d0d96388ac")},
                   {"value": 0x000000002faf0800, "script": h("76a914fd270b1ee6abcaea97fea7ad0402e8bd8ad6d77c88ac")}]}
    d = bip143(tx, 0, h("76a91479091972186c449eb1ded22b78e40d009bdf008988ac"), 1000000000, 1)
    assert d == int("64f3b0f4dd2bb3aa1ce8566d220cc74dda9df97d8490cc81d89d735c92e59fb6", 16), hex(d)
    # FindAndDelete behaviour (Core script_tests: script_FindAndDelete)
    assert find_and_delete(h("0302ff03" "0302ff03"), h("0302ff03")) == (b"", 2)
    assert find_and_delete(h("0302ff030302ff03"), h("02")) == (h("0302ff030302ff03"), 0)
    assert find_and_delete(h("0302ff030302ff03"), h("ff")) == (h("0302ff030302ff03"), 0)
    assert find_and_delete(h("0302ff030302ff03"), h("03")) == (h("02ff0302ff03"), 2)
    assert find_and_delete(h("02feed5169"), h("feed51")) == (h("02feed5169"), 0)
    assert find_and_delete(h("02feed5169"), h("02feed51")) == (h("69"), 1)
    assert find_and_delete(h("516902feed5169"), h("feed51")) == (h("516902feed5169"), 0)
    assert find_and_delete(h("516902feed5169"), h("02feed51")) == (h("516969"), 1)
    assert find_and_delete(h("00"), h("00")) == (b"", 1)
    assert find_and_delete(h("0000"), h("00")) == (b"", 2)
    assert find_and_delete(h("ab02feed5169"), h("02feed5169")) == (h("ab"), 1)


_calibrate()
