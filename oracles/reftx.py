"""Reference transaction (de)serialisation: legacy + BIP144, txid / wtxid.  Imports nothing from pycoin.
Transactions are refsighash-style dicts; inputs may carry "witness": [bytes, ...]."""
import struct

from .refsighash import compact_size, sha256d, ser_outpoint, ser_txout


class ParseError(Exception):
    pass


class Reader:
    def __init__(self, b):
        self.b, self.i = b, 0

    def take(self, n):
        if self.i + n > len(self.b):
            raise ParseError("short read")
        r = self.b[self.i:self.i + n]
        self.i += n
        return r

    def u32(self):
        return struct.unpack("<L", self.take(4))[0]

    def u64(self):
        return struct.unpack("<Q", self.take(8))[0]

    def csize(self):
        v = self.take(1)[0]
        if v < 253:
            return v
        if v == 253:
            return struct.unpack("<H", self.take(2))[0]
        if v == 254:
            return struct.unpack("<L", self.take(4))[0]
        return struct.unpack("<Q", self.take(8))[0]

    def vbytes(self):
        return bytes(self.take(self.csize()))


def parse_tx(b, allow_witness=True):
    r = Reader(b)
    tx = {"version": r.u32(), "ins": [], "outs": []}
    n = r.csize()
    flag = 0
    if n == 0 and allow_witness:
        flag = r.take(1)[0]
        if flag != 0:
            n = r.csize()
    for _ in range(n):
        h = bytes(r.take(32))
        idx = r.u32()
        tx["ins"].append({"prev_hash": h, "prev_index": idx, "script": r.vbytes(), "sequence": r.u32(), "witness": []})
    for _ in range(r.csize()):
        v = r.u64()
        tx["outs"].append({"value": v, "script": r.vbytes()})
    if flag & 1:
        for i in tx["ins"]:
            i["witness"] = [r.vbytes() for _ in range(r.csize())]
    tx["locktime"] = r.u32()
    if r.i != len(b):
        raise ParseError("trailing bytes")
    return tx


def ser_tx(tx, with_witness=True):
    has_wit = with_witness and any(i.get("witness") for i in tx["ins"])
    s = bytearray(struct.pack("<L", tx["version"] & 0xffffffff))
    if has_wit:
        s += b"\x00\x01"
    s += compact_size(len(tx["ins"]))
    for i in tx["ins"]:
        s += ser_outpoint(i) + compact_size(len(i["script"])) + i["script"] + struct.pack("<L", i["sequence"])
    s += compact_size(len(tx["outs"]))
    for o in tx["outs"]:
        s += ser_txout(o)
    if has_wit:
        for i in tx["ins"]:
            w = i.get("witness") or []
            s += compact_size(len(w))
            for item in w:
                s += compact_size(len(item)) + item
    s += struct.pack("<L", tx["locktime"])
    return bytes(s)


def txid_bytes(tx):
    """hash as serialised in an outpoint (little-endian / internal byte order)"""
    return sha256d(ser_tx(tx, with_witness=False))
