"""Calibration of refvm against Core's vectors shipped in the repo's test data (data files only: no pycoin code)."""
import json
import os

from . import refasm, refvm, reftx

DATA = os.path.join(os.environ.get("VERIF_REPO", "/repo"), "tests", "btc", "data")

FLAGNAMES = {"P2SH": refvm.P2SH, "STRICTENC": refvm.STRICTENC, "DERSIG": refvm.DERSIG, "LOW_S": refvm.LOW_S,
             "NULLDUMMY": refvm.NULLDUMMY, "SIGPUSHONLY": refvm.SIGPUSHONLY, "MINIMALDATA": refvm.MINIMALDATA,
             "DISCOURAGE_UPGRADABLE_NOPS": refvm.DISCOURAGE_UPGRADABLE_NOPS, "CLEANSTACK": refvm.CLEANSTACK,
             "CHECKLOCKTIMEVERIFY": refvm.CHECKLOCKTIMEVERIFY, "CHECKSEQUENCEVERIFY": refvm.CHECKSEQUENCEVERIFY,
             "WITNESS": refvm.WITNESS, "DISCOURAGE_UPGRADABLE_WITNESS_PROGRAM": refvm.DISCOURAGE_UPGRADABLE_WITNESS_PROGRAM,
             "MINIMALIF": refvm.MINIMALIF, "NULLFAIL": refvm.NULLFAIL, "WITNESS_PUBKEYTYPE": refvm.WITNESS_PUBKEYTYPE,
             "NONE": 0, "": 0}


def parse_flags(s):
    f = 0
    for w in s.split(","):
        f |= FLAGNAMES[w.strip()]
    return f


def credit_and_spend(script_sig, script_pubkey, witness, amount):
    credit = {"version": 1, "locktime": 0,
              "ins": [{"prev_hash": b"\0" * 32, "prev_index": 0xffffffff, "script": b"\0\0", "sequence": 0xffffffff}],
              "outs": [{"value": amount, "script": script_pubkey}]}
    spend = {"version": 1, "locktime": 0,
             "ins": [{"prev_hash": reftx.txid_bytes(credit), "prev_index": 0, "script": script_sig,
                      "sequence": 0xffffffff, "witness": list(witness)}],
             "outs": [{"value": amount, "script": b""}]}
    return spend


def script_vectors():
    with open(os.path.join(DATA, "script_tests.json")) as f:
        for t in json.load(f):
            if len(t) < 4:
                continue
            wit, amount = [], 0
            if isinstance(t[0], list):
                wit = [bytes.fromhex(w) for w in t[0][:-1]]
                amount = int(round(t[0][-1] * 100000000))
                t = t[1:]
            yield {"sig": t[0], "pk": t[1], "flags": t[2], "expected": t[3], "witness": [w.hex() for w in wit], "amount": amount}


def run_script_vector(v):
    sig = refasm.parse_script(v["sig"])
    pk = refasm.parse_script(v["pk"])
    wit = [bytes.fromhex(w) for w in v["witness"]]
    flags = parse_flags(v["flags"])
    spend = credit_and_spend(sig, pk, wit, v["amount"])
    checker = refvm.TxChecker(spend, 0, v["amount"])
    verdict, err, ctx = refvm.run_verify(sig, pk, wit, flags, checker)
    return verdict, err


def tx_vectors():
    for fn, valid in (("tx_valid.json", True), ("tx_invalid.json", False)):
        with open(os.path.join(DATA, fn)) as f:
            for t in json.load(f):
                if len(t) != 3 or not isinstance(t[0], list):
                    continue
                yield {"prevouts": t[0], "tx": t[1], "flags": t[2], "valid": valid}


def check_transaction(tx):
    """Core CheckTransaction (context-free), enough for tx_invalid.json"""
    if not tx["ins"] or not tx["outs"]:
        return False
    if len(reftx.ser_tx(tx, with_witness=False)) > 1000000:
        return False
    tot = 0
    MAX = 21000000 * 100000000
    for o in tx["outs"]:
        v = o["value"]
        if v >= 1 << 63:
            return False  # negative as int64
        if v > MAX:
            return False
        tot += v
        if tot > MAX:
            return False
    seen = set()
    for i in tx["ins"]:
        k = (i["prev_hash"], i["prev_index"])
        if k in seen:
            return False
        seen.add(k)
    null = [i for i in tx["ins"] if i["prev_hash"] == b"\0" * 32 and i["prev_index"] == 0xffffffff]
    if len(tx["ins"]) == 1 and null:
        if not 2 <= len(tx["ins"][0]["script"]) <= 100:
            return False
    elif null:
        return False
    return True


def run_tx_vector(v):
    tx = reftx.parse_tx(bytes.fromhex(v["tx"]))
    prev = {}
    for p in v["prevouts"]:
        h = bytes.fromhex(p[0])[::-1]
        idx = p[1] & 0xffffffff
        prev[(h, idx)] = (refasm.parse_script(p[2]), p[3] if len(p) > 3 else 0)
    flags = parse_flags(v["flags"])
    ok = check_transaction(tx)
    either = False
    if ok:
        for n, i in enumerate(tx["ins"]):
            k = (i["prev_hash"], i["prev_index"])
            if k not in prev:
                ok = False
                break
            spk, amount = prev[k]
            verdict, err, ctx = refvm.run_verify(i["script"], spk, i.get("witness") or [], flags,
                                                 refvm.TxChecker(tx, n, amount))
            if verdict == refvm.EITHER:
                either = True
            if verdict == refvm.FAIL:
                ok = False
                break
    return ok, either


def calibrate(stride=1, offset=0):
    """returns list of mismatch descriptions (empty = calibrated)"""
    bad = []
    for k, v in enumerate(script_vectors()):
        if k % stride != offset:
            continue
        verdict, err = run_script_vector(v)
        exp_ok = v["expected"] == "OK"
        if verdict == refvm.EITHER:
            # vectors are from the Core <= 0.15 line: DISCOURAGE_UPGRADABLE_NOPS applies
            if v["expected"] not in ("DISCOURAGE_UPGRADABLE_NOPS",):
                bad.append("script vector %d: EITHER but expected %s: %r" % (k, v["expected"], v))
            continue
        if (verdict == refvm.OK) != exp_ok:
            bad.append("script vector %d: got %s/%s expected %s: %r" % (k, verdict, err, v["expected"], v))
        elif not exp_ok and err != v["expected"]:
            # error names are not part of the property, but agreement on them is a strong calibration signal
            aliases = {("SCRIPTNUM_OVERFLOW", "UNKNOWN_ERROR"), ("SCRIPTNUM_NONMINIMAL", "UNKNOWN_ERROR"),
                       ("CHECKSIGVERIFY", "CHECKSIGVERIFY"), ("EVAL_FALSE", "CLEANSTACK")}
            if (err, v["expected"]) not in aliases:
                bad.append("script vector %d: error name %s expected %s: %r" % (k, err, v["expected"], v))
    for k, v in enumerate(tx_vectors()):
        if k % stride != offset:
            continue
        ok, either = run_tx_vector(v)
        if either:
            continue
        if ok != v["valid"]:
            bad.append("tx vector %d (%s): got %s: %s" % (k, "valid" if v["valid"] else "invalid", ok, v["tx"][:80]))
    return bad
