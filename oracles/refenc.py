"""Reference encoders/decoders written from the specifications; imports nothing from pycoin.

Base58 / Base58Check (Bitcoin wiki), Bech32 / Bech32m (BIP173 / BIP350), strict SEC (SEC1 2.3.3/2.3.4
restricted to 02/03/04), minimal DER for ECDSA signatures.
"""
import hashlib

B58 = "123456789ABCDEFGHJKLMNPQRSTUVWXYZabcdefghijkmnopqrstuvwxyz"


def sha256d(b):
    return hashlib.sha256(hashlib.sha256(b).digest()).digest()


def b58encode(data: bytes) -> str:
    nz = 0
    while nz < len(data) and data[nz] == 0:
        nz += 1
    v = int.from_bytes(data, "big")
    out = ""
    while v:
        v, r = divmod(v, 58)
        out = B58[r] + out
    return "1" * nz + out


def b58decode(s: str):
    """returns bytes, or None when s has a character outside the alphabet"""
    v = 0
    for ch in s:
        i = B58.find(ch)
        if i < 0 or len(ch) != 1:
            return None
        v = v * 58 + i
    nz = 0
    while nz < len(s) and s[nz] == "1":
        nz += 1
    body = v.to_bytes((v.bit_length() + 7) // 8, "big")
    return b"\0" * nz + body


def b58check_encode(payload: bytes) -> str:
    return b58encode(payload + sha256d(payload)[:4])


def b58check_decode(s: str):
    """payload or None"""
    raw = b58decode(s)
    if raw is None or len(raw) < 4:
        return None
    if sha256d(raw[:-4])[:4] != raw[-4:]:
        return None
    return raw[:-4]


# ------------------------------------------------------------------------------------------------ bech32

CHARSET = "qpzry9x8gf2tvdw0s3jn54khce6mua7l"
GEN = (0x3b6a57b2, 0x26508e6d, 0x1ea119fa, 0x3d4233dd, 0x2a1462b3)
BECH32_CONST = 1
BECH32M_CONST = 0x2bc830a3


def polymod(values):
    chk = 1
    for v in values:
        b = chk >> 25
        chk = ((chk & 0x1ffffff) << 5) ^ v
        for i in range(5):
            if (b >> i) & 1:
                chk ^= GEN[i]
    return chk


def hrp_expand(hrp):
    return [ord(c) >> 5 for c in hrp] + [0] + [ord(c) & 31 for c in hrp]


def bech32_encode_raw(hrp, data5, const):
    vals = hrp_expand(hrp) + list(data5)
    pm = polymod(vals + [0] * 6) ^ const
    chk = [(pm >> 5 * (5 - i)) & 31 for i in range(6)]
    return hrp + "1" + "".join(CHARSET[d] for d in list(data5) + chk)


def to5(data: bytes):
    acc = bits = 0
    out = []
    for b in data:
        acc = (acc << 8) | b
        bits += 8
        while bits >= 5:
            bits -= 5
            out.append((acc >> bits) & 31)
    if bits:
        out.append((acc << (5 - bits)) & 31)
    return out


def from5(vals):
    """strict 5->8 conversion: None if padding > 4 bits or non-zero"""
    acc = bits = 0
    out = bytearray()
    for v in vals:
        acc = (acc << 5) | v
        bits += 5
        while bits >= 8:
            bits -= 8
            out.append((acc >> bits) & 0xff)
    if bits >= 5 or (acc & ((1 << bits) - 1)):
        return None
    return bytes(out)


def segwit_encode(hrp, ver, prog):
    """BIP173/BIP350 address or None if the triple is not allowed"""
    if not (0 <= ver <= 16) or not (2 <= len(prog) <= 40):
        return None
    if ver == 0 and len(prog) not in (20, 32):
        return None
    if not (1 <= len(hrp) <= 83) or any(ord(c) < 33 or ord(c) > 126 for c in hrp):
        return None
    s = bech32_encode_raw(hrp.lower(), [ver] + to5(prog), BECH32_CONST if ver == 0 else BECH32M_CONST)
    if len(s) > 90:
        return None
    return s


def segwit_decode(hrp, addr):
    """(ver, prog) or None, per BIP173/BIP350 decoding rules; hrp is the expected (lower-case) hrp"""
    if any(ord(c) < 33 or ord(c) > 126 for c in addr):
        return None
    if addr.lower() != addr and addr.upper() != addr:
        return None
    addr = addr.lower()
    pos = addr.rfind("1")
    if pos < 1 or pos + 7 > len(addr) or len(addr) > 90:
        return None
    if any(c not in CHARSET for c in addr[pos + 1:]):
        return None
    if addr[:pos] != hrp:
        return None
    data = [CHARSET.find(c) for c in addr[pos + 1:]]
    const = polymod(hrp_expand(addr[:pos]) + data)
    if const not in (BECH32_CONST, BECH32M_CONST):
        return None
    data = data[:-6]
    if not data:
        return None
    ver = data[0]
    prog = from5(data[1:])
    if prog is None or not (2 <= len(prog) <= 40) or ver > 16:
        return None
    if ver == 0 and len(prog) not in (20, 32):
        return None
    if (ver == 0) != (const == BECH32_CONST):
        return None
    return ver, prog


# ------------------------------------------------------------------------------------------------ DER / SEC


def der_int(v):
    b = v.to_bytes(max(1, (v.bit_length() + 7) // 8), "big")
    if b[0] & 0x80:
        b = b"\0" + b
    return b"\x02" + _der_len(len(b)) + b


def _der_len(n):
    if n < 0x80:
        return bytes([n])
    b = n.to_bytes((n.bit_length() + 7) // 8, "big")
    return bytes([0x80 | len(b)]) + b


def der_sig(r, s):
    body = der_int(r) + der_int(s)
    return b"\x30" + _der_len(len(body)) + body


def sec_encode(x, y, compressed, size=32):
    if compressed:
        return bytes([2 + (y & 1)]) + x.to_bytes(size, "big")
    return b"\x04" + x.to_bytes(size, "big") + y.to_bytes(size, "big")


def sec_decode_strict(blob, p, a, b, size=32):
    """(x, y, compressed) or None.  Accepts only the unique 02/03/04 encodings of curve points."""
    if len(blob) == 1 + size and blob[0] in (2, 3):
        x = int.from_bytes(blob[1:], "big")
        if x >= p:
            return None
        rhs = (x * x * x + a * x + b) % p
        if rhs == 0:
            y = 0
        else:
            if pow(rhs, (p - 1) // 2, p) != 1:
                return None
            assert p % 4 == 3
            y = pow(rhs, (p + 1) // 4, p)
        if (y & 1) != (blob[0] & 1):
            y = (p - y) % p
            if (y & 1) != (blob[0] & 1):
                return None
        return x, y, True
    if len(blob) == 1 + 2 * size and blob[0] == 4:
        x = int.from_bytes(blob[1:1 + size], "big")
        y = int.from_bytes(blob[1 + size:], "big")
        if x >= p or y >= p:
            return None
        if (y * y - (x * x * x + a * x + b)) % p != 0:
            return None
        return x, y, False
    return None


# ------------------------------------------------------------------------------------------------ calibration


def _calibrate():
    # Bitcoin wiki Base58Check worked example
    assert b58check_encode(bytes.fromhex("00010966776006953D5567439E5E39F86A0D273BEE")) == "16UwLL9Risc3QfPqBUvKofHmBQ7wMtjvM"
    assert b58check_decode("16UwLL9Risc3QfPqBUvKofHmBQ7wMtjvM") == bytes.fromhex("00010966776006953D5567439E5E39F86A0D273BEE")
    assert b58encode(b"\0\0\0") == "111" and b58decode("111") == b"\0\0\0" and b58encode(b"") == ""
    # BIP173 / BIP350 vectors
    valid = [
        ("BC1QW508D6QEJXTDG4Y5R3ZARVARY0C5XW7KV8F3T4", "bc", 0, "751e76e8199196d454941c45d1b3a323f1433bd6"),
        ("tb1qrp33g0q5c5txsp9arysrx4k6zdkfs4nce4xj0gdcccefvpysxf3q0sl5k7", "tb", 0,
         "1863143c14c5166804bd19203356da136c985678cd4d27a1b8c6329604903262"),
        ("bc1pw508d6qejxtdg4y5r3zarvary0c5xw7kw508d6qejxtdg4y5r3zarvary0c5xw7kt5nd6y", "bc", 1,
         "751e76e8199196d454941c45d1b3a323f1433bd6751e76e8199196d454941c45d1b3a323f1433bd6"),
        ("BC1SW50QGDZ25J", "bc", 16, "751e"),
        ("bc1zw508d6qejxtdg4y5r3zarvaryvaxxpcs", "bc", 2, "751e76e8199196d454941c45d1b3a323"),
        ("bc1p0xlxvlhemja6c4dqv22uapctqupfhlxm9h8z3k2e72q4k9hcz7vqzk5jj0", "bc", 1,
         "79be667ef9dcbbac55a06295ce870b07029bfcdb2dce28d959f2815b16f81798"),
    ]
    for addr, hrp, ver, prog in valid:
        assert segwit_decode(hrp, addr) == (ver, bytes.fromhex(prog)), addr
        assert segwit_encode(hrp, ver, bytes.fromhex(prog)) == addr.lower(), addr
    invalid = [
        ("tb", "tc1p0xlxvlhemja6c4dqv22uapctqupfhlxm9h8z3k2e72q4k9hcz7vq5zuyut"),
        ("bc", "bc1p0xlxvlhemja6c4dqv22uapctqupfhlxm9h8z3k2e72q4k9hcz7vqh2y7hd"),
        ("tb", "tb1z0xlxvlhemja6c4dqv22uapctqupfhlxm9h8z3k2e72q4k9hcz7vqglt7rf"),
        ("bc", "BC1S0XLXVLHEMJA6C4DQV22UAPCTQUPFHLXM9H8Z3K2E72Q4K9HCZ7VQ54WELL"),
        ("bc", "bc1qw508d6qejxtdg4y5r3zarvary0c5xw7kemeawh"),
        ("tb", "tb1q0xlxvlhemja6c4dqv22uapctqupfhlxm9h8z3k2e72q4k9hcz7vq24jc47"),
        ("bc", "bc1p38j9r5y49hruaue7wxjce0updqjuyyx0kh56v8s25huc6995vvpql3jow4"),
        ("bc", "BC130XLXVLHEMJA6C4DQV22UAPCTQUPFHLXM9H8Z3K2E72Q4K9HCZ7VQ7ZWS8R"),
        ("bc", "bc1pw5dgrnzv"),
        ("bc", "bc1p0xlxvlhemja6c4dqv22uapctqupfhlxm9h8z3k2e72q4k9hcz7v8n0nx0muaewav253zgeav"),
        ("bc", "BC1QR508D6QEJXTDG4Y5R3ZARVARYV98GJ9P"),
        ("tb", "tb1p0xlxvlhemja6c4dqv22uapctqupfhlxm9h8z3k2e72q4k9hcz7vq47Zagq"),
        ("bc", "bc1p0xlxvlhemja6c4dqv22uapctqupfhlxm9h8z3k2e72q4k9hcz7v07qwwzcrf"),
        ("tb", "tb1p0xlxvlhemja6c4dqv22uapctqupfhlxm9h8z3k2e72q4k9hcz7vpggkg4j"),
        ("bc", "bc1gmk9yu"),
    ]
    for hrp, addr in invalid:
        assert segwit_decode(hrp, addr) is None, addr
    assert der_sig(1, 1) == bytes.fromhex("3006020101020101")
    assert der_sig(0x80, 0x7f) == bytes.fromhex("300702020080" "02017f")


_calibrate()
