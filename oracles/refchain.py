"""Heaviest-chain reference model for C15; imports nothing from pycoin.

A *forest* is a list of N nodes, node i (1-based) = [parent, weight] where parent is
    0        the initial anchor (the "genesis parent" the tracker is created with),
    -1, -2   unknown hashes that are never delivered (orphan roots),
    j >= 1   node j.
Weights are positive integers.

Model: over the headers delivered so far, a *candidate* is any parent-linked sequence c_0, c_1, ... c_m of
delivered headers with parent(c_0) == anchor and parent(c_{i+1}) == c_i.  The reported (unlocked part of the)
chain must be a candidate whose total weight equals the maximum over all candidates (0 = empty chain when the
anchor has no delivered child).  Ties are allowed, so this is a validity predicate, not a function.
Locking a prefix of length k moves the anchor to the k-th reported block; the locked blocks stay in the
reported chain for ever.
"""
import itertools


class Model:
    def __init__(self, anchor):
        self.anchor = anchor
        self.locked = []            # hashes, oldest first
        self.headers = {}           # hash -> (parent_hash, weight)
        self.children = {}          # parent_hash -> [hash, ...] in delivery order

    def deliver(self, triples):
        """triples: iterable of (hash, parent_hash, weight).  Returns the list of hashes that were new."""
        new = []
        for h, p, w in triples:
            if h in self.headers:
                continue
            self.headers[h] = (p, w)
            self.children.setdefault(p, []).append(h)
            new.append(h)
        return new

    def best_weight(self):
        """maximum total weight of a candidate chain below the current anchor"""
        best = 0
        stack = [(c, 0) for c in self.children.get(self.anchor, [])]
        while stack:
            h, acc = stack.pop()
            acc += self.headers[h][1]
            if acc > best:
                best = acc
            for c in self.children.get(h, []):
                stack.append((c, acc))
        return best

    def best_chains(self):
        """all maximum-weight candidates (lists of hashes, oldest first); used for messages and calibration"""
        best = self.best_weight()
        out = []
        stack = [(c, 0, []) for c in self.children.get(self.anchor, [])]
        while stack:
            h, acc, path = stack.pop()
            acc += self.headers[h][1]
            path = path + [h]
            if acc == best:
                out.append(path)
            for c in self.children.get(h, []):
                stack.append((c, acc, path))
        return sorted(out) if out else [[]]

    def judge(self, unlocked_chain):
        """None if `unlocked_chain` (oldest first, below the anchor) is a valid answer, else (kind, text)"""
        prev = self.anchor
        total = 0
        for i, h in enumerate(unlocked_chain):
            if h not in self.headers:
                return "unknown-hash", "position %d: %r was never delivered" % (i, h)
            p, w = self.headers[h]
            if p != prev:
                return "not-linked", "position %d: %r has parent %r, expected %r" % (i, h, p, prev)
            total += w
            prev = h
        best = self.best_weight()
        if total != best:
            return "not-heaviest", "reported weight %d, maximum %d (e.g. %r)" % (total, best, self.best_chains()[0])
        return None

    def lock(self, unlocked_prefix):
        """lock the given (already judged) prefix of the unlocked chain"""
        for h in unlocked_prefix:
            self.locked.append(h)
            self.anchor = h


class Shadow:
    """the list a listener maintains from the add/remove operations"""

    def __init__(self):
        self.items = []

    def apply(self, kind, h, index):
        """None if the op is applicable, else (kind, text)"""
        if kind == "add":
            if index != len(self.items):
                return "add-index", "add of %r at index %r but the list has %d items" % (h, index, len(self.items))
            self.items.append(h)
            return None
        if kind == "remove":
            if not self.items:
                return "remove-empty", "remove of %r at %r from an empty list" % (h, index)
            if index != len(self.items) - 1:
                return "remove-index", "remove of %r at index %r but the last index is %d" % (h, index, len(self.items) - 1)
            if self.items[-1] != h:
                return "remove-wrong-block", "remove of %r at index %r but that slot holds %r" % (h, index, self.items[-1])
            self.items.pop()
            return None
        return "bad-op", "unknown op kind %r" % (kind,)


# ---------------------------------------------------------------------------------------------- enumeration


def parent_functions(n, roots=(0, -1)):
    """every acyclic parent function on nodes 1..n with parents in roots + other nodes (labelled rooted forests
    with len(roots) kinds of root); yields tuples p[0..n-1], p[i] = parent of node i+1"""
    choices = [list(roots) + [j for j in range(1, n + 1) if j != i] for i in range(1, n + 1)]
    for p in itertools.product(*choices):
        ok = True
        for i in range(1, n + 1):
            seen = 0
            j = i
            while j >= 1:
                j = p[j - 1]
                seen += 1
                if seen > n:
                    ok = False
                    break
            if not ok:
                break
        if ok:
            yield p


def compositions(n):
    """all ways to cut a sequence of n items into consecutive non-empty batches: lists of batch lengths"""
    for cuts in itertools.product((0, 1), repeat=n - 1):
        out = []
        cur = 1
        for c in cuts:
            if c:
                out.append(cur)
                cur = 1
            else:
                cur += 1
        out.append(cur)
        yield out


def _calibrate():
    # labelled rooted forests with r kinds of root: r * (n + r)^(n - 1)
    for n, want in ((1, 2), (2, 8), (3, 50), (4, 432)):
        assert sum(1 for _ in parent_functions(n)) == want, n
    assert sum(1 for _ in parent_functions(3, roots=(0,))) == 16      # Cayley: (n+1)^(n-1)
    assert [sum(1 for _ in compositions(n)) for n in (1, 2, 3, 4)] == [1, 2, 4, 8]
    assert sorted(map(tuple, compositions(3))) == [(1, 1, 1), (1, 2), (2, 1), (3,)]
    # hand-worked forest:  A <- 1(w1) <- 2(w1) <- 3(w1);  1 <- 4(w3);  U <- 5(w9)
    m = Model("A")
    assert m.best_weight() == 0 and m.judge([]) is None
    m.deliver([(3, 2, 1), (5, "U", 9)])
    assert m.best_weight() == 0 and m.judge([]) is None and m.judge([3])[0] == "not-linked"
    m.deliver([(1, "A", 1)])
    assert m.best_weight() == 1 and m.judge([1]) is None and m.judge([])[0] == "not-heaviest"
    m.deliver([(2, 1, 1), (2, 1, 1)])
    assert m.best_weight() == 3 and m.judge([1, 2, 3]) is None and m.judge([1, 2])[0] == "not-heaviest"
    m.deliver([(4, 1, 3)])
    assert m.best_weight() == 4 and m.judge([1, 4]) is None and m.judge([1, 2, 3])[0] == "not-heaviest"
    assert m.best_chains() == [[1, 4]]
    assert m.judge([1, 7])[0] == "unknown-hash" and m.judge([4])[0] == "not-linked"
    m.lock([1])
    assert m.anchor == 1 and m.best_weight() == 3 and m.judge([4]) is None and m.judge([2, 3])[0] == "not-heaviest"
    m.deliver([(6, 3, 1)])                               # tie: 2,3,6 (3) vs 4 (3)
    assert m.judge([4]) is None and m.judge([2, 3, 6]) is None and len(m.best_chains()) == 2
    m.lock([2])
    assert m.best_weight() == 2 and m.judge([3, 6]) is None and m.judge([])[0] == "not-heaviest"
    s = Shadow()
    assert s.apply("add", 1, 0) is None and s.apply("add", 2, 1) is None and s.apply("add", 9, 1)[0] == "add-index"
    assert s.apply("remove", 1, 1)[0] == "remove-wrong-block" and s.apply("remove", 2, 0)[0] == "remove-index"
    assert s.apply("remove", 2, 1) is None and s.items == [1]


_calibrate()
