"""Reference BIP32 (hierarchical deterministic keys), written from the BIP text.  Imports nothing from pycoin.

    master(seed)            I = HMAC-SHA512("Bitcoin seed", seed);  k = parse256(I_L), c = I_R
    ckd_priv(node, i)       i >= 2^31: I = HMAC-SHA512(c_par, 0x00 || ser256(k_par) || ser32(i))
                            else     : I = HMAC-SHA512(c_par, serP(K_par) || ser32(i))
                            k_i = parse256(I_L) + k_par (mod n), c_i = I_R; invalid if parse256(I_L) >= n or k_i = 0
    ckd_pub(node, i)        i < 2^31 only: K_i = point(parse256(I_L)) + K_par, c_i = I_R
    serialize               4 version || 1 depth || 4 parent fingerprint || 4 child number || 32 chain code ||
                            33 key data (0x00 || ser256(k) or serP(K))   = 78 bytes, then Base58Check
    fingerprint             first 4 bytes of RIPEMD160(SHA256(serP(K)))

Invalid children (probability < 2^-127) are returned as None: BIP32 says "proceed with the next value for i",
which is the caller's business, so the checks treat such a case as out of reach instead of guessing.

Also: the old (v1) Electrum deterministic wallet sequence, child = master + SHA256d("n:for_change:" || mpk).

Calibrated at import on BIP32 test vectors 1-4 (every xpub / xprv string of every chain).
"""
import hashlib
import hmac

from . import refec, refenc

CURVE = refec.SECP256K1
N = CURVE.n
HARD = 0x80000000

XPRV = bytes.fromhex("0488ade4")
XPUB = bytes.fromhex("0488b21e")


def hash160(b: bytes) -> bytes:
    return hashlib.new("ripemd160", hashlib.sha256(b).digest()).digest()


def ser_p(P) -> bytes:
    return refenc.sec_encode(P[0], P[1], True)


def _g_table():
    t, P = [], CURVE.G
    for _ in range(256):
        t.append((P[0], P[1], 1))
        P = CURVE.add(P, P)
    return t


_G_POW2 = _g_table()        # 2^i * G, affine (textbook doubling), as Jacobian triples with Z = 1


def point(k: int):
    """k*G as the sum of the 2^i*G selected by the bits of k (fixed-base; about 3x faster than the generic ladder,
    calibrated against refec.Curve.mul_fast and the affine refec.Curve.mul below)"""
    k %= N
    acc = (0, 1, 0)
    i = 0
    while k:
        if k & 1:
            acc = CURVE._jadd(acc, _G_POW2[i])
        k >>= 1
        i += 1
    if acc[2] == 0:
        return None
    zi = pow(acc[2], -1, CURVE.p)
    return (acc[0] * zi * zi % CURVE.p, acc[1] * zi * zi * zi % CURVE.p)


class Node:
    """k is None for a public-only node; K is always the affine public point"""
    __slots__ = ("k", "K", "c", "depth", "pfp", "index")

    def __init__(self, k, K, c, depth=0, pfp=b"\0\0\0\0", index=0):
        if K is None:
            K = point(k)
        self.k, self.K, self.c, self.depth, self.pfp, self.index = k, K, c, depth, pfp, index

    def public(self):
        return Node(None, self.K, self.c, self.depth, self.pfp, self.index)

    def fingerprint(self):
        return hash160(ser_p(self.K))[:4]

    def fields(self):
        return (self.k, self.K, self.c, self.depth, self.pfp, self.index)


def master(seed: bytes):
    I = hmac.new(b"Bitcoin seed", seed, hashlib.sha512).digest()
    k = int.from_bytes(I[:32], "big")
    if k == 0 or k >= N:
        return None
    return Node(k, None, I[32:])


def ckd_priv(node: Node, i: int):
    """private parent -> private child (index i in [0, 2^32), hardened iff i >= 2^31)"""
    assert node.k is not None and 0 <= i < 2**32
    if i >= HARD:
        data = b"\0" + node.k.to_bytes(32, "big") + i.to_bytes(4, "big")
    else:
        data = ser_p(node.K) + i.to_bytes(4, "big")
    I = hmac.new(node.c, data, hashlib.sha512).digest()
    il = int.from_bytes(I[:32], "big")
    k = (il + node.k) % N
    if il >= N or k == 0:
        return None
    return Node(k, None, I[32:], node.depth + 1, node.fingerprint(), i)


def ckd_pub(node: Node, i: int):
    """public parent -> public child; only defined for non-hardened i"""
    assert 0 <= i < HARD
    I = hmac.new(node.c, ser_p(node.K) + i.to_bytes(4, "big"), hashlib.sha512).digest()
    il = int.from_bytes(I[:32], "big")
    if il >= N:
        return None
    K = CURVE.add(point(il), node.K)
    if K is None:
        return None
    return Node(None, K, I[32:], node.depth + 1, node.fingerprint(), i)


def derive(node: Node, path):
    """path: iterable of full 32-bit child numbers; returns the list of nodes [child1, child2, ...] (None-terminated
    if an invalid child is met)"""
    out = []
    for i in path:
        node = ckd_priv(node, i) if node.k is not None else ckd_pub(node, i)
        out.append(node)
        if node is None:
            break
    return out


def serialize(node: Node, private: bool, version: bytes) -> bytes:
    assert len(version) == 4 and 0 <= node.depth < 256 and len(node.pfp) == 4 and len(node.c) == 32
    if private:
        assert node.k is not None
        keydata = b"\0" + node.k.to_bytes(32, "big")
    else:
        keydata = ser_p(node.K)
    blob = version + bytes([node.depth]) + node.pfp + node.index.to_bytes(4, "big") + node.c + keydata
    assert len(blob) == 78
    return blob


def text(node: Node, private: bool, version: bytes) -> str:
    return refenc.b58check_encode(serialize(node, private, version))


def parse_text(s: str):
    """(version, Node) or None.  Strict: 78 bytes, key data 00||k with 0<k<n or a compressed curve point."""
    blob = refenc.b58check_decode(s)
    if blob is None or len(blob) != 78:
        return None
    version, depth, pfp, index, c, kd = blob[:4], blob[4], blob[5:9], int.from_bytes(blob[9:13], "big"), blob[13:45], blob[45:]
    if kd[0] == 0:
        k = int.from_bytes(kd[1:], "big")
        if not 0 < k < N:
            return None
        return version, Node(k, None, c, depth, pfp, index)
    pt = refenc.sec_decode_strict(kd, CURVE.p, CURVE.a, CURVE.b)
    if pt is None:
        return None
    return version, Node(None, (pt[0], pt[1]), c, depth, pfp, index)


# ------------------------------------------------------------------------------------------------ Electrum v1


def electrum_stretch(seed_hex_text: str) -> int:
    """old Electrum key stretching: 100000 rounds of x = SHA256(x || seed) over the ASCII seed text"""
    seed = seed_hex_text.encode("utf8")
    x = seed
    for _ in range(100000):
        x = hashlib.sha256(x + seed).digest()
    return int.from_bytes(x, "big")


def electrum_mpk(K) -> bytes:
    """master public key: the 64 bytes x || y"""
    return K[0].to_bytes(32, "big") + K[1].to_bytes(32, "big")


def electrum_offset(mpk: bytes, n: int, for_change: int) -> int:
    return int.from_bytes(refenc.sha256d(("%d:%d:" % (n, for_change)).encode("ascii") + mpk), "big")


def electrum_child_priv(k: int, n: int, for_change: int) -> int:
    return (k + electrum_offset(electrum_mpk(point(k)), n, for_change)) % N


def electrum_child_pub(K, n: int, for_change: int):
    return CURVE.add(K, point(electrum_offset(electrum_mpk(K), n, for_change) % N))


# ------------------------------------------------------------------------------------------------ calibration

H = HARD
VECTORS = [
    ("000102030405060708090a0b0c0d0e0f", [
        (None,
         "xpub661MyMwAqRbcFtXgS5sYJABqqG9YLmC4Q1Rdap9gSE8NqtwybGhePY2gZ29ESFjqJoCu1Rupje8YtGqsefD265TMg7usUDFdp6W1EGMcet8",
         "xprv9s21ZrQH143K3QTDL4LXw2F7HEK3wJUD2nW2nRk4stbPy6cq3jPPqjiChkVvvNKmPGJxWUtg6LnF5kejMRNNU3TGtRBeJgk33yuGBxrMPHi"),
        (0 + H,
         "xpub68Gmy5EdvgibQVfPdqkBBCHxA5htiqg55crXYuXoQRKfDBFA1WEjWgP6LHhwBZeNK1VTsfTFUHCdrfp1bgwQ9xv5ski8PX9rL2dZXvgGDnw",
         "xprv9uHRZZhk6KAJC1avXpDAp4MDc3sQKNxDiPvvkX8Br5ngLNv1TxvUxt4cV1rGL5hj6KCesnDYUhd7oWgT11eZG7XnxHrnYeSvkzY7d2bhkJ7"),
        (1,
         "xpub6ASuArnXKPbfEwhqN6e3mwBcDTgzisQN1wXN9BJcM47sSikHjJf3UFHKkNAWbWMiGj7Wf5uMash7SyYq527Hqck2AxYysAA7xmALppuCkwQ",
         "xprv9wTYmMFdV23N2TdNG573QoEsfRrWKQgWeibmLntzniatZvR9BmLnvSxqu53Kw1UmYPxLgboyZQaXwTCg8MSY3H2EU4pWcQDnRnrVA1xe8fs"),
        (2 + H,
         "xpub6D4BDPcP2GT577Vvch3R8wDkScZWzQzMMUm3PWbmWvVJrZwQY4VUNgqFJPMM3No2dFDFGTsxxpG5uJh7n7epu4trkrX7x7DogT5Uv6fcLW5",
         "xprv9z4pot5VBttmtdRTWfWQmoH1taj2axGVzFqSb8C9xaxKymcFzXBDptWmT7FwuEzG3ryjH4ktypQSAewRiNMjANTtpgP4mLTj34bhnZX7UiM"),
        (2,
         "xpub6FHa3pjLCk84BayeJxFW2SP4XRrFd1JYnxeLeU8EqN3vDfZmbqBqaGJAyiLjTAwm6ZLRQUMv1ZACTj37sR62cfN7fe5JnJ7dh8zL4fiyLHV",
         "xprvA2JDeKCSNNZky6uBCviVfJSKyQ1mDYahRjijr5idH2WwLsEd4Hsb2Tyh8RfQMuPh7f7RtyzTtdrbdqqsunu5Mm3wDvUAKRHSC34sJ7in334"),
        (1000000000,
         "xpub6H1LXWLaKsWFhvm6RVpEL9P4KfRZSW7abD2ttkWP3SSQvnyA8FSVqNTEcYFgJS2UaFcxupHiYkro49S8yGasTvXEYBVPamhGW6cFJodrTHy",
         "xprvA41z7zogVVwxVSgdKUHDy1SKmdb533PjDz7J6N6mV6uS3ze1ai8FHa8kmHScGpWmj4WggLyQjgPie1rFSruoUihUZREPSL39UNdE3BBDu76"),
    ]),
    ("fffcf9f6f3f0edeae7e4e1dedbd8d5d2cfccc9c6c3c0bdbab7b4b1aeaba8a5a29f9c999693908d8a8784817e7b7875726f6c696663605d5a5754514e4b484542", [
        (None,
         "xpub661MyMwAqRbcFW31YEwpkMuc5THy2PSt5bDMsktWQcFF8syAmRUapSCGu8ED9W6oDMSgv6Zz8idoc4a6mr8BDzTJY47LJhkJ8UB7WEGuduB",
         "xprv9s21ZrQH143K31xYSDQpPDxsXRTUcvj2iNHm5NUtrGiGG5e2DtALGdso3pGz6ssrdK4PFmM8NSpSBHNqPqm55Qn3LqFtT2emdEXVYsCzC2U"),
        (0,
         "xpub69H7F5d8KSRgmmdJg2KhpAK8SR3DjMwAdkxj3ZuxV27CprR9LgpeyGmXUbC6wb7ERfvrnKZjXoUmmDznezpbZb7ap6r1D3tgFxHmwMkQTPH",
         "xprv9vHkqa6EV4sPZHYqZznhT2NPtPCjKuDKGY38FBWLvgaDx45zo9WQRUT3dKYnjwih2yJD9mkrocEZXo1ex8G81dwSM1fwqWpWkeS3v86pgKt"),
        (2147483647 + H,
         "xpub6ASAVgeehLbnwdqV6UKMHVzgqAG8Gr6riv3Fxxpj8ksbH9ebxaEyBLZ85ySDhKiLDBrQSARLq1uNRts8RuJiHjaDMBU4Zn9h8LZNnBC5y4a",
         "xprv9wSp6B7kry3Vj9m1zSnLvN3xH8RdsPP1Mh7fAaR7aRLcQMKTR2vidYEeEg2mUCTAwCd6vnxVrcjfy2kRgVsFawNzmjuHc2YmYRmagcEPdU9"),
        (1,
         "xpub6DF8uhdarytz3FWdA8TvFSvvAh8dP3283MY7p2V4SeE2wyWmG5mg5EwVvmdMVCQcoNJxGoWaU9DCWh89LojfZ537wTfunKau47EL2dhHKon",
         "xprv9zFnWC6h2cLgpmSA46vutJzBcfJ8yaJGg8cX1e5StJh45BBciYTRXSd25UEPVuesF9yog62tGAQtHjXajPPdbRCHuWS6T8XA2ECKADdw4Ef"),
        (2147483646 + H,
         "xpub6ERApfZwUNrhLCkDtcHTcxd75RbzS1ed54G1LkBUHQVHQKqhMkhgbmJbZRkrgZw4koxb5JaHWkY4ALHY2grBGRjaDMzQLcgJvLJuZZvRcEL",
         "xprvA1RpRA33e1JQ7ifknakTFpgNXPmW2YvmhqLQYMmrj4xJXXWYpDPS3xz7iAxn8L39njGVyuoseXzU6rcxFLJ8HFsTjSyQbLYnMpCqE2VbFWc"),
        (2,
         "xpub6FnCn6nSzZAw5Tw7cgR9bi15UV96gLZhjDstkXXxvCLsUXBGXPdSnLFbdpq8p9HmGsApME5hQTZ3emM2rnY5agb9rXpVGyy3bdW6EEgAtqt",
         "xprvA2nrNbFZABcdryreWet9Ea4LvTJcGsqrMzxHx98MMrotbir7yrKCEXw7nadnHM8Dq38EGfSh6dqA9QWTyefMLEcBYJUuekgW4BYPJcr9E7j"),
    ]),
    # vector 3: retention of leading zeros in the private key
    ("4b381541583be4423346c643850da4b320e46a87ae3d2a4e6da11eba819cd4acba45d239319ac14f863b8d5ab5a0d0c64d2e8a1e7d1457df2e5a3c51c73235be", [
        (None,
         "xpub661MyMwAqRbcEZVB4dScxMAdx6d4nFc9nvyvH3v4gJL378CSRZiYmhRoP7mBy6gSPSCYk6SzXPTf3ND1cZAceL7SfJ1Z3GC8vBgp2epUt13",
         "xprv9s21ZrQH143K25QhxbucbDDuQ4naNntJRi4KUfWT7xo4EKsHt2QJDu7KXp1A3u7Bi1j8ph3EGsZ9Xvz9dGuVrtHHs7pXeTzjuxBrCmmhgC6"),
        (0 + H,
         "xpub68NZiKmJWnxxS6aaHmn81bvJeTESw724CRDs6HbuccFQN9Ku14VQrADWgqbhhTHBaohPX4CjNLf9fq9MYo6oDaPPLPxSb7gwQN3ih19Zm4Y",
         "xprv9uPDJpEQgRQfDcW7BkF7eTya6RPxXeJCqCJGHuCJ4GiRVLzkTXBAJMu2qaMWPrS7AANYqdq6vcBcBUdJCVVFceUvJFjaPdGZ2y9WACViL4L"),
    ]),
    # vector 4: leading zeros, hardened children
    ("3ddd5602285899a946114506157c7997e5444528f3003f6134712147db19b678", [
        (None,
         "xpub661MyMwAqRbcGczjuMoRm6dXaLDEhW1u34gKenbeYqAix21mdUKJyuyu5F1rzYGVxyL6tmgBUAEPrEz92mBXjByMRiJdba9wpnN37RLLAXa",
         "xprv9s21ZrQH143K48vGoLGRPxgo2JNkJ3J3fqkirQC2zVdk5Dgd5w14S7fRDyHH4dWNHUgkvsvNDCkvAwcSHNAQwhwgNMgZhLtQC63zxwhQmRv"),
        (0 + H,
         "xpub69AUMk3qDBi3uW1sXgjCmVjJ2G6WQoYSnNHyzkmdCHEhSZ4tBok37xfFEqHd2AddP56Tqp4o56AePAgCjYdvpW2PU2jbUPFKsav5ut6Ch1m",
         "xprv9vB7xEWwNp9kh1wQRfCCQMnZUEG21LpbR9NPCNN1dwhiZkjjeGRnaALmPXCX7SgjFTiCTT6bXes17boXtjq3xLpcDjzEuGLQBM5ohqkao9G"),
        (1 + H,
         "xpub6BJA1jSqiukeaesWfxe6sNK9CCGaujFFSJLomWHprUL9DePQ4JDkM5d88n49sMGJxrhpjazuXYWdMf17C9T5XnxkopaeS7jGk1GyyVziaMt",
         "xprv9xJocDuwtYCMNAo3Zw76WENQeAS6WGXQ55RCy7tDJ8oALr4FWkuVoHJeHVAcAqiZLE7Je3vZJHxspZdFHfnBEjHqU5hG1Jaj32dVoS6XLT1"),
    ]),
]
def _calibrate():
    for k in (1, 2, 3, 4, 2**128, N - 1, N - 2, 2**255 + 12345, 0x1234567890abcdef1234567890abcdef1234567890abcdef1234567890abcdef,
              int.from_bytes(hashlib.sha256(b"refbip32").digest(), "big") % N):
        assert point(k) == CURVE.mul_fast(k, CURVE.G) == CURVE.mul(k, CURVE.G), k
    assert point(N) is None and point(0) is None
    assert hash160(b"") == bytes.fromhex("b472a266d0bd89c13706a4132ccfb16f7c3b9fcb")
    for seed_hex, chain in VECTORS:
        node = master(bytes.fromhex(seed_hex))
        pub_node = None
        for idx, xpub, xprv in chain:
            if idx is not None:
                parent = node
                node = ckd_priv(parent, idx)
                if idx < HARD:
                    # CKDpub from the parent's public half, and from a running public-only chain
                    via_pub = ckd_pub(parent.public(), idx)
                    assert via_pub.fields() == node.public().fields(), (seed_hex, idx)
                    if pub_node is not None:
                        pub_node = ckd_pub(pub_node, idx)
                        assert pub_node.fields() == node.public().fields()
                else:
                    pub_node = None
            if pub_node is None:
                pub_node = node.public()
            assert node.K == point(node.k)
            assert text(node, True, XPRV) == xprv, (seed_hex, idx, text(node, True, XPRV))
            assert text(node, False, XPUB) == xpub, (seed_hex, idx, text(node, False, XPUB))
            v, back = parse_text(xprv)
            assert v == XPRV and back.fields() == node.fields()
            v, back = parse_text(xpub)
            assert v == XPUB and back.fields() == node.public().fields()
    # strictness of parse_text on the key-data field (the classes of BIP32 test vector 5, rebuilt here)
    good = refenc.b58check_decode(VECTORS[0][1][0][2])
    head = good[:45]
    for kd in (b"\x04" + good[46:], b"\x01" + good[46:], b"\0" + bytes(32), b"\0" + N.to_bytes(32, "big"),
               b"\x02" + (5).to_bytes(32, "big")):          # x = 5 has no point on secp256k1
        assert parse_text(refenc.b58check_encode(head + kd)) is None, kd.hex()
    assert parse_text(refenc.b58check_encode(good + b"\0")) is None and parse_text(refenc.b58check_encode(good[:-1])) is None
    # Electrum: public and private sequences commute in the reference itself
    k = 0x1234567890abcdef1234567890abcdef1234567890abcdef1234567890abcdef
    for n, ch in ((0, 0), (7, 1), (123456, 0)):
        assert point(electrum_child_priv(k, n, ch)) == electrum_child_pub(point(k), n, ch)


_calibrate()
