"""Reference short-Weierstrass arithmetic over F_p.  Imports nothing from pycoin.

Points are None (infinity) or (x, y) tuples of reduced ints.  `add` is the textbook affine law with
pow(x, -1, p); `mul` is a plain double-and-add on affine points (slow but obviously right); `mul_fast`
is a Jacobian ladder, calibrated against `mul`.
"""


class Curve:
    def __init__(self, p, a, b, G=None, n=None, name=""):
        self.p, self.a, self.b, self.G, self.n, self.name = p, a, b, G, n, name

    def on_curve(self, P):
        if P is None:
            return True
        x, y = P
        return 0 <= x < self.p and 0 <= y < self.p and (y * y - (x * x * x + self.a * x + self.b)) % self.p == 0

    def neg(self, P):
        if P is None:
            return None
        return (P[0], (-P[1]) % self.p)

    def add(self, P, Q):
        p = self.p
        if P is None:
            return Q
        if Q is None:
            return P
        x1, y1 = P
        x2, y2 = Q
        if x1 == x2:
            if (y1 + y2) % p == 0:
                return None
            lam = (3 * x1 * x1 + self.a) * pow(2 * y1, -1, p) % p
        else:
            lam = (y2 - y1) * pow(x2 - x1, -1, p) % p
        x3 = (lam * lam - x1 - x2) % p
        y3 = (lam * (x1 - x3) - y1) % p
        return (x3, y3)

    def mul(self, k, P):
        """k*P for any integer k, by affine double-and-add (no reduction of k needed)"""
        if k < 0:
            return self.mul(-k, self.neg(P))
        R = None
        A = P
        while k:
            if k & 1:
                R = self.add(R, A)
            A = self.add(A, A)
            k >>= 1
        return R

    # Jacobian ladder ------------------------------------------------------------------------------
    def _jdbl(self, P):
        X, Y, Z = P
        p = self.p
        if Z == 0 or Y == 0:
            return (0, 1, 0)
        S = 4 * X * Y * Y % p
        M = (3 * X * X + self.a * pow(Z, 4, p)) % p
        X3 = (M * M - 2 * S) % p
        Y3 = (M * (S - X3) - 8 * pow(Y, 4, p)) % p
        Z3 = 2 * Y * Z % p
        return (X3, Y3, Z3)

    def _jadd(self, P, Q):
        p = self.p
        X1, Y1, Z1 = P
        X2, Y2, Z2 = Q
        if Z1 == 0:
            return Q
        if Z2 == 0:
            return P
        Z1Z1 = Z1 * Z1 % p
        Z2Z2 = Z2 * Z2 % p
        U1 = X1 * Z2Z2 % p
        U2 = X2 * Z1Z1 % p
        S1 = Y1 * Z2 * Z2Z2 % p
        S2 = Y2 * Z1 * Z1Z1 % p
        if U1 == U2:
            if S1 != S2:
                return (0, 1, 0)
            return self._jdbl(P)
        H = (U2 - U1) % p
        R = (S2 - S1) % p
        HH = H * H % p
        HHH = H * HH % p
        V = U1 * HH % p
        X3 = (R * R - HHH - 2 * V) % p
        Y3 = (R * (V - X3) - S1 * HHH) % p
        Z3 = H * Z1 * Z2 % p
        return (X3, Y3, Z3)

    def mul_fast(self, k, P):
        if P is None or k == 0:
            return None
        if k < 0:
            return self.mul_fast(-k, self.neg(P))
        J = (P[0], P[1], 1)
        R = (0, 1, 0)
        for bit in bin(k)[2:]:
            R = self._jdbl(R)
            if bit == "1":
                R = self._jadd(R, J)
        if R[2] == 0:
            return None
        zi = pow(R[2], -1, self.p)
        return (R[0] * zi * zi % self.p, R[1] * zi * zi * zi % self.p)

    # roots ----------------------------------------------------------------------------------------
    def rhs(self, x):
        return (x * x * x + self.a * x + self.b) % self.p

    def ys_for_x(self, x):
        """sorted-by-parity (even first) list of y with (x,y) on the curve; [] if none.  p = 3 mod 4."""
        p = self.p
        r = self.rhs(x)
        if r == 0:
            return [0]
        if pow(r, (p - 1) // 2, p) != 1:
            return []
        assert p % 4 == 3
        y = pow(r, (p + 1) // 4, p)
        assert y * y % p == r
        ys = [y, p - y]
        ys.sort(key=lambda v: v & 1)
        return ys

    def all_points(self):
        """brute force, small p only"""
        pts = [None]
        sq = {}
        for y in range(self.p):
            sq.setdefault(y * y % self.p, []).append(y)
        for x in range(self.p):
            for y in sq.get(self.rhs(x), []):
                pts.append((x, y))
        return pts


def is_prime(n):
    if n < 2:
        return False
    i = 2
    while i * i <= n:
        if n % i == 0:
            return False
        i += 1
    return True


def toy_curves(pmax, pmin=5, max_per_p=2):
    """brute-forced curves y^2 = x^3 + ax + b over F_p, p = 3 mod 4 prime, of odd prime group order n >= 5,
    with a generator G (any non-infinity point).  Deterministic order.  Returns Curve objects."""
    out = []
    for p in range(pmin, pmax):
        if not is_prime(p) or p % 4 != 3:
            continue
        found = 0
        seen_n = set()
        for a in range(p):
            for b in range(p):
                if (4 * a * a * a + 27 * b * b) % p == 0:
                    continue
                c = Curve(p, a, b)
                pts = c.all_points()
                n = len(pts)
                if n < 5 or not is_prime(n) or n % 2 == 0 or n == p:
                    continue   # n == p (anomalous) excluded: harmless but atypical
                if (n, a == 0) in seen_n:
                    continue
                seen_n.add((n, a == 0))
                G = pts[1 + (a + b) % (n - 1)]
                out.append(Curve(p, a, b, G, n, "toy-p%d-a%d-b%d-n%d" % (p, a, b, n)))
                found += 1
                if found >= max_per_p:
                    break
            if found >= max_per_p:
                break
    return out


SECP256K1 = Curve(
    2**256 - 2**32 - 977, 0, 7,
    (0x79BE667EF9DCBBAC55A06295CE870B07029BFCDB2DCE28D959F2815B16F81798,
     0x483ADA7726A3C4655DA4FBFC0E1108A8FD17B448A68554199C47D08FFB10D4B8),
    0xFFFFFFFFFFFFFFFFFFFFFFFFFFFFFFFEBAAEDCE6AF48A03BBFD25E8CD0364141, "secp256k1")

SECP256R1 = Curve(
    0xFFFFFFFF00000001000000000000000000000000FFFFFFFFFFFFFFFFFFFFFFFF,
    0xFFFFFFFF00000001000000000000000000000000FFFFFFFFFFFFFFFFFFFFFFFC,
    0x5AC635D8AA3A93E7B3EBBD55769886BC651D06B0CC53B0F63BCE3C3E27D2604B,
    (0x6B17D1F2E12C4247F8BCE6E563A440F277037D812DEB33A0F4A13945D898C296,
     0x4FE342E2FE1A7F9B8EE7EB4A7C0F9E162BCE33576B315ECECBB6406837BF51F5),
    0xFFFFFFFF00000000FFFFFFFFFFFFFFFFBCE6FAADA7179E84F3B9CAC2FC632551, "secp256r1")

BLS12_381_G1 = Curve(
    0x1A0111EA397FE69A4B1BA7B6434BACD764774B84F38512BF6730D2A0F6B0F6241EABFFFEB153FFFFB9FEFFFFFFFFAAAB, 0, 4,
    (0x17F1D3A73197D7942695638C4FA9AC0FC3688C4F9774B905A14E3A3F171BAC586C55E83FF97A1AEFFB3AF00ADB22C6BB,
     0x08B3F481E3AAA0F1A09E30ED741D8AE4FCF5E095D5D00AF600DB18CB2C04B3EDD03CC744A2888AE40CAA232946C5E7E1),
    0x73EDA753299D7D483339D80809A1D80553BDA402FFFE5BFEFFFFFFFF00000001, "bls12-381-g1")


def _calibrate():
    for c in (SECP256K1, SECP256R1, BLS12_381_G1):
        assert c.on_curve(c.G) and c.p % 4 == 3
        assert c.mul_fast(c.n, c.G) is None
        assert c.mul_fast(c.n - 1, c.G) == c.neg(c.G)
        for k in (1, 2, 3, 7, 255, 2**64 + 12345):
            assert c.mul(k, c.G) == c.mul_fast(k, c.G)
    # published 2G, 3G for secp256k1
    assert SECP256K1.mul(2, SECP256K1.G)[0] == 0xC6047F9441ED7D6D3045406E95C07CD85C778E4B8CEF3CA7ABAC09B95C709EE5
    assert SECP256K1.mul(3, SECP256K1.G)[0] == 0xF9308A019258C31049344F85F89D5229B531C845836F99B08601F113BCE036F9
    # P-256 2G (NIST / RFC vectors)
    assert SECP256R1.mul(2, SECP256R1.G)[0] == 0x7CF27B188D034F7E8A52380304B51AC3C08969E277F21B35A60B48FC47669978
    for c in toy_curves(60):
        pts = c.all_points()
        assert len(pts) == c.n
        acc = None
        for k in range(0, 2 * c.n + 2):
            assert c.mul(k, c.G) == acc == c.mul_fast(k, c.G), (c.name, k)
            acc = c.add(acc, c.G)


_calibrate()
