#!/venv/bin/python
"""Single entry point:  run.py <Cxx> [--tier quick|thorough] [--replay FILE] [--collect] [--only sub,sub]

exit 0: property held on everything explored;  exit 1: VIOLATION line printed;  exit 2: harness error.
"""
import argparse
import glob
import importlib
import json
import os
import sys

HERE = os.path.dirname(os.path.abspath(__file__))


def main():
    ap = argparse.ArgumentParser()
    ap.add_argument("prop")
    ap.add_argument("--tier", default=os.environ.get("VERIF_TIER") or "quick", choices=["quick", "thorough"])
    ap.add_argument("--replay")
    ap.add_argument("--collect", action="store_true", help="triage mode: bucket all violations, do not stop")
    ap.add_argument("--only")
    ap.add_argument("--pins", action="store_true", help="replay pinned known/fixed findings and regression files only")
    args = ap.parse_args()

    if os.environ.get("PYTHONHASHSEED") != "0":
        os.environ["PYTHONHASHSEED"] = "0"
        os.execv(sys.executable, [sys.executable] + sys.argv)

    sys.dont_write_bytecode = True
    repo = os.path.abspath(os.environ.get("VERIF_REPO", "/repo"))
    os.environ["VERIF_REPO"] = repo
    sys.path.insert(0, HERE)
    deps = os.path.join(HERE, ".deps")
    if os.path.isdir(deps):
        sys.path.append(deps)
    sys.path.insert(0, repo)
    import pycoin
    if not os.path.abspath(pycoin.__file__).startswith(repo + os.sep):
        print("harness error: pycoin imported from %s, not %s" % (pycoin.__file__, repo), file=sys.stderr)
        return 2
    try:
        import hypothesis  # noqa
    except ImportError:
        print("harness error: hypothesis not installed in this interpreter (run setup_cmd)", file=sys.stderr)
        return 2

    seed = int(os.environ.get("VERIF_SEED") or "1")
    from vlib import core
    prop = args.prop.upper()
    cands = glob.glob(os.path.join(HERE, "checks", prop.lower() + "*.py"))
    if len(cands) != 1:
        print("harness error: no unique check module for %s" % prop, file=sys.stderr)
        return 2
    modname = "checks." + os.path.basename(cands[0])[:-3]
    try:
        mod = importlib.import_module(modname)
    except BaseException as ex:  # calibration failure or import error: never a VIOLATION
        import traceback
        traceback.print_exc()
        print("harness error (import/calibration of %s): %r" % (modname, ex), file=sys.stderr)
        return 2

    if args.replay:
        fail, subname = core.replay_file(mod, args.replay)
        if fail is None:
            print("replay: no violation")
            return 0
        known = core.known_buckets(prop)
        if all(b in known for b in fail["bucket"]):
            print("KNOWN-FINDING: property=%s replayed case reproduces listed finding %s" % (prop, "+".join(fail["bucket"])))
            return 0
        print("VIOLATION property=%s replay=%s" % (prop, os.path.abspath(args.replay)))
        print("  subcheck=%s bucket=%s\n  %s" % (subname, "+".join(fail["bucket"]), fail["msg"][:600]))
        return 1

    only = set(args.only.split(",")) if args.only else None
    ev, violations, herrs = core.run_property(mod, args.tier, seed, collect=args.collect, only=only, pins_only=args.pins)
    cov = ev["coverage"]
    print("%s tier=%s seed=%d evaluations=%d distinct_nontrivial=%d wall=%.1fs violations=%d%s" % (
        prop, args.tier, seed, cov["evaluations"], cov["distinct_nontrivial"], ev["wall_s"], violations,
        " INCONCLUSIVE(budget guard)" if cov["inconclusive"] else ""))
    for name, sc in cov["subchecks"].items():
        print("  %-28s evals=%-8d nontrivial=%-8d excluded=%s %.1fs" % (
            name, sc["evaluations"], sc["distinct_nontrivial"], sc["excluded_known"] or "-", sc["wall_s"]))
        if args.collect and sc.get("collected"):
            for b, c in sc["collected"].items():
                print("     COLLECTED %s x%d: %s\n        case=%s" % (b, c["count"], c["msg"][:300], json.dumps(c["case"])[:600]))
    for n in cov["notes"]:
        print("  note:", n)
    if violations:
        return 1
    if herrs:
        return 2
    return 0


if __name__ == "__main__":
    sys.exit(main())
